// d0ast: resolved-program exporter for the bxdecay0 static checks.
// Emits, per translation unit, one JSON file with every function defined in
// project files (not under /usr), with resolved callees / declarations and
// literal source spellings.  See /verif/DESIGN.md section 2.1.
#include "clang/AST/ASTConsumer.h"
#include "clang/AST/ASTContext.h"
#include "clang/AST/DeclCXX.h"
#include "clang/AST/ExprCXX.h"
#include "clang/AST/StmtCXX.h"
#include "clang/Frontend/CompilerInstance.h"
#include "clang/Frontend/FrontendAction.h"
#include "clang/Lex/Lexer.h"
#include "clang/Tooling/CommonOptionsParser.h"
#include "clang/Tooling/Tooling.h"
#include "llvm/Support/CommandLine.h"
#include "llvm/Support/JSON.h"
#include "llvm/Support/FileSystem.h"
#include "llvm/Support/Path.h"
#include <set>

using namespace clang;
using namespace clang::tooling;
namespace json = llvm::json;

static llvm::cl::OptionCategory Cat("d0ast");
static llvm::cl::opt<std::string> OutDir("outdir", llvm::cl::desc("output directory"), llvm::cl::Required,
                                         llvm::cl::cat(Cat));

namespace {

struct Exporter {
  ASTContext &C;
  SourceManager &SM;
  PrintingPolicy PP;
  json::Array Functions, Statics, Records, Enums;
  std::set<const Decl *> SeenStatics;

  Exporter(ASTContext &c) : C(c), SM(c.getSourceManager()), PP(c.getLangOpts())
  {
    PP.SuppressTagKeyword = true;
    PP.Bool               = true;
  }

  std::string fileOf(SourceLocation L)
  {
    if (L.isInvalid()) return "";
    SourceLocation E = SM.getExpansionLoc(L);
    return SM.getFilename(E).str();
  }
  unsigned lineOf(SourceLocation L)
  {
    if (L.isInvalid()) return 0;
    return SM.getExpansionLineNumber(L);
  }
  unsigned colOf(SourceLocation L)
  {
    if (L.isInvalid()) return 0;
    return SM.getExpansionColumnNumber(L);
  }
  bool isProject(SourceLocation L)
  {
    std::string f = fileOf(L);
    if (f.empty()) return false;
    if (SM.isInSystemHeader(SM.getExpansionLoc(L))) return false;
    if (f.rfind("/..", 0) == 0) return false;
    if (f.rfind("/usr/", 0) == 0) return false;
    if (f.rfind("/opt/", 0) == 0) return false;
    return true;
  }
  std::string declId(const Decl *D)
  {
    if (!D) return "";
    const Decl *CD = D->getCanonicalDecl();
    std::string f  = fileOf(CD->getLocation());
    return llvm::sys::path::filename(f).str() + ":" + std::to_string(lineOf(CD->getLocation())) + ":" +
           std::to_string(colOf(CD->getLocation()));
  }
  std::string ty(QualType T)
  {
    if (T.isNull()) return "";
    return T.getAsString(PP);
  }
  std::string passMode(QualType T)
  {
    if (T.isNull()) return "v";
    if (T->isRValueReferenceType()) return "rref";
    if (T->isLValueReferenceType()) return T->getPointeeType().isConstQualified() ? "cref" : "ref";
    if (T->isPointerType()) return T->getPointeeType().isConstQualified() ? "cptr" : "ptr";
    return "v";
  }
  std::string spelling(const Stmt *S)
  {
    SourceLocation B = S->getBeginLoc(), E = S->getEndLoc();
    if (B.isInvalid() || E.isInvalid()) return "";
    B = SM.getSpellingLoc(B);
    E = SM.getSpellingLoc(E);
    return Lexer::getSourceText(CharSourceRange::getTokenRange(B, E), SM, C.getLangOpts()).str();
  }

  // ---------------------------------------------------------------- decl refs
  std::string varKind(const VarDecl *V)
  {
    if (isa<ParmVarDecl>(V)) return "param";
    if (V->isStaticLocal()) return "static_local";
    if (V->isLocalVarDecl()) return "local";
    if (V->isStaticDataMember()) return "static_member";
    if (V->hasGlobalStorage()) return "global";
    return "local";
  }
  void refInfo(json::Object &O, const ValueDecl *D)
  {
    O["name"] = D->getNameAsString();
    O["id"]   = declId(D);
    O["ty"]   = ty(D->getType());
    if (const auto *V = dyn_cast<VarDecl>(D)) {
      O["dk"] = varKind(V);
      if (V->getType().isConstQualified()) O["const"] = true;
      if (V->hasGlobalStorage() || V->isStaticLocal()) O["qn"] = V->getQualifiedNameAsString();
    } else if (isa<EnumConstantDecl>(D)) {
      O["dk"] = "enum";
      O["qn"] = D->getQualifiedNameAsString();
      O["val"] = (int64_t)cast<EnumConstantDecl>(D)->getInitVal().getExtValue();
    } else if (isa<FieldDecl>(D)) {
      O["dk"] = "field";
      O["qn"] = D->getQualifiedNameAsString();
    } else if (const auto *F = dyn_cast<FunctionDecl>(D)) {
      O["dk"] = "func";
      O["qn"] = F->getQualifiedNameAsString();
    } else {
      O["dk"] = "other";
      O["qn"] = D->getQualifiedNameAsString();
    }
  }
  json::Object calleeInfo(const FunctionDecl *F)
  {
    json::Object O;
    O["qn"] = F->getQualifiedNameAsString();
    O["id"] = declId(F);
    O["ret"] = ty(F->getReturnType());
    json::Array pm;
    for (const ParmVarDecl *P : F->parameters()) pm.push_back(passMode(P->getType()));
    O["pm"] = std::move(pm);
    if (F->isVariadic()) O["variadic"] = true;
    if (const auto *M = dyn_cast<CXXMethodDecl>(F)) {
      O["method"] = true;
      O["cls"]    = M->getParent()->getQualifiedNameAsString();
      if (M->isVirtual()) O["virtual"] = true;
      if (M->isConst()) O["const"] = true;
      if (M->isStatic()) O["static"] = true;
    }
    O["project"] = isProject(F->getLocation());
    return O;
  }

  // -------------------------------------------------------------- expressions
  json::Value expr(const Expr *E)
  {
    if (!E) return nullptr;
    // transparent wrappers
    if (const auto *X = dyn_cast<ImplicitCastExpr>(E)) return expr(X->getSubExpr());
    if (const auto *X = dyn_cast<ParenExpr>(E)) return expr(X->getSubExpr());
    if (const auto *X = dyn_cast<ExprWithCleanups>(E)) return expr(X->getSubExpr());
    if (const auto *X = dyn_cast<MaterializeTemporaryExpr>(E)) return expr(X->getSubExpr());
    if (const auto *X = dyn_cast<CXXBindTemporaryExpr>(E)) return expr(X->getSubExpr());
    if (const auto *X = dyn_cast<ConstantExpr>(E)) return expr(X->getSubExpr());
    if (const auto *X = dyn_cast<SubstNonTypeTemplateParmExpr>(E)) return expr(X->getReplacement());
    if (const auto *X = dyn_cast<CXXStdInitializerListExpr>(E)) return expr(X->getSubExpr());
    if (const auto *X = dyn_cast<CXXDefaultArgExpr>(E)) {
      json::Object O;
      O["k"] = "DefaultArg";
      O["e"] = expr(X->getExpr());
      return std::move(O);
    }
    if (const auto *X = dyn_cast<CXXDefaultInitExpr>(E)) return expr(X->getExpr());

    json::Object O;
    O["l"] = (int64_t)lineOf(E->getBeginLoc());
    if (const auto *X = dyn_cast<IntegerLiteral>(E)) {
      O["k"] = "Num";
      O["t"] = "i";
      O["v"] = spelling(X);
      llvm::SmallString<32> s;
      X->getValue().toString(s, 10, X->getType()->isSignedIntegerType());
      O["val"] = s.str().str();
      if (X->getBeginLoc().isMacroID())
        O["macro"] = Lexer::getImmediateMacroName(X->getBeginLoc(), SM, C.getLangOpts()).str();
    } else if (const auto *X = dyn_cast<FloatingLiteral>(E)) {
      O["k"] = "Num";
      O["t"] = "f";
      O["v"] = spelling(X);
      {
        double d = X->getValueAsApproximateDouble();
        if (d == d && d - d == 0.0) O["val"] = d;
      }
      if (X->getBeginLoc().isMacroID())
        O["macro"] = Lexer::getImmediateMacroName(X->getBeginLoc(), SM, C.getLangOpts()).str();
    } else if (const auto *X = dyn_cast<StringLiteral>(E)) {
      O["k"] = "Str";
      O["v"] = X->isAscii() ? X->getString().str() : std::string("?");
    } else if (const auto *X = dyn_cast<CharacterLiteral>(E)) {
      O["k"] = "Chr";
      O["v"] = (int64_t)X->getValue();
    } else if (const auto *X = dyn_cast<CXXBoolLiteralExpr>(E)) {
      O["k"] = "Bool";
      O["v"] = X->getValue();
    } else if (isa<CXXNullPtrLiteralExpr>(E) || isa<GNUNullExpr>(E)) {
      O["k"] = "Null";
    } else if (const auto *X = dyn_cast<DeclRefExpr>(E)) {
      O["k"] = "Ref";
      refInfo(O, X->getDecl());
    } else if (const auto *X = dyn_cast<MemberExpr>(E)) {
      O["k"]    = "Member";
      O["base"] = expr(X->getBase());
      if (X->isArrow()) O["arrow"] = true;
      refInfo(O, X->getMemberDecl());
    } else if (const auto *X = dyn_cast<CXXThisExpr>(E)) {
      O["k"] = "This";
      if (X->isImplicit()) O["implicit"] = true;
      O["ty"] = ty(X->getType());
    } else if (const auto *X = dyn_cast<CXXOperatorCallExpr>(E)) {
      O["k"]  = "OpCall";
      O["op"] = getOperatorSpelling(X->getOperator());
      if (const FunctionDecl *F = X->getDirectCallee()) O["callee"] = calleeInfo(F);
      json::Array A;
      for (const Expr *a : X->arguments()) A.push_back(expr(a));
      O["args"] = std::move(A);
      O["ty"]   = ty(X->getType());
    } else if (const auto *X = dyn_cast<CXXMemberCallExpr>(E)) {
      O["k"] = "MCall";
      if (const CXXMethodDecl *M = X->getMethodDecl()) O["callee"] = calleeInfo(M);
      O["obj"] = expr(X->getImplicitObjectArgument());
      if (const auto *ME = dyn_cast<MemberExpr>(X->getCallee()->IgnoreParenImpCasts()))
        if (ME->isArrow()) O["arrow"] = true;
      json::Array A;
      for (const Expr *a : X->arguments()) A.push_back(expr(a));
      O["args"] = std::move(A);
      O["ty"]   = ty(X->getType());
    } else if (const auto *X = dyn_cast<CallExpr>(E)) {
      O["k"] = "Call";
      if (const FunctionDecl *F = X->getDirectCallee())
        O["callee"] = calleeInfo(F);
      else
        O["fn"] = expr(X->getCallee());
      json::Array A;
      for (const Expr *a : X->arguments()) A.push_back(expr(a));
      O["args"] = std::move(A);
      O["ty"]   = ty(X->getType());
    } else if (const auto *X = dyn_cast<CXXConstructExpr>(E)) {
      if (X->isElidable() && X->getNumArgs() == 1) return expr(X->getArg(0));
      O["k"]      = isa<CXXTemporaryObjectExpr>(E) ? "TempCtor" : "Ctor";
      O["callee"] = calleeInfo(X->getConstructor());
      O["ty"]     = ty(X->getType());
      json::Array A;
      for (const Expr *a : X->arguments()) A.push_back(expr(a));
      O["args"] = std::move(A);
    } else if (const auto *X = dyn_cast<ExplicitCastExpr>(E)) {
      O["k"] = "Cast";
      O["ck"] = isa<CStyleCastExpr>(E)            ? "cstyle"
                : isa<CXXStaticCastExpr>(E)       ? "static"
                : isa<CXXFunctionalCastExpr>(E)   ? "functional"
                : isa<CXXReinterpretCastExpr>(E)  ? "reinterpret"
                : isa<CXXConstCastExpr>(E)        ? "const"
                : isa<CXXDynamicCastExpr>(E)      ? "dynamic"
                                                  : "other";
      O["ty"] = ty(X->getTypeAsWritten());
      O["e"]  = expr(X->getSubExpr());
    } else if (const auto *X = dyn_cast<UnaryOperator>(E)) {
      O["k"]  = "Un";
      O["op"] = UnaryOperator::getOpcodeStr(X->getOpcode()).str();
      if (X->isPostfix()) O["post"] = true;
      O["e"] = expr(X->getSubExpr());
    } else if (const auto *X = dyn_cast<BinaryOperator>(E)) {
      O["k"]  = "Bin";
      O["op"] = X->getOpcodeStr().str();
      O["a"]  = expr(X->getLHS());
      O["b"]  = expr(X->getRHS());
      if (X->isAssignmentOp() || X->isCompoundAssignmentOp()) O["ty"] = ty(X->getType());
    } else if (const auto *X = dyn_cast<ConditionalOperator>(E)) {
      O["k"] = "Cond";
      O["c"] = expr(X->getCond());
      O["a"] = expr(X->getTrueExpr());
      O["b"] = expr(X->getFalseExpr());
    } else if (const auto *X = dyn_cast<ArraySubscriptExpr>(E)) {
      O["k"] = "Idx";
      O["a"] = expr(X->getBase());
      O["i"] = expr(X->getIdx());
      O["ty"] = ty(X->getType());
    } else if (const auto *X = dyn_cast<InitListExpr>(E)) {
      O["k"] = "InitList";
      json::Array A;
      const InitListExpr *S = X->isSemanticForm() ? X : (X->getSemanticForm() ? X->getSemanticForm() : X);
      for (const Expr *a : S->inits()) A.push_back(expr(a));
      O["elts"] = std::move(A);
      O["ty"]   = ty(X->getType());
    } else if (const auto *X = dyn_cast<CXXNewExpr>(E)) {
      O["k"]  = "New";
      O["ty"] = ty(X->getAllocatedType());
      if (X->isArray()) {
        O["array"] = true;
        if (auto sz = X->getArraySize())
          if (*sz) O["size"] = expr(*sz);
      }
      if (X->getInitializer()) O["init"] = expr(X->getInitializer());
    } else if (const auto *X = dyn_cast<CXXDeleteExpr>(E)) {
      O["k"] = "Delete";
      O["e"] = expr(X->getArgument());
      if (X->isArrayForm()) O["array"] = true;
    } else if (const auto *X = dyn_cast<CXXThrowExpr>(E)) {
      O["k"] = "Throw";
      O["e"] = expr(X->getSubExpr());
    } else if (const auto *X = dyn_cast<LambdaExpr>(E)) {
      O["k"]    = "Lambda";
      O["body"] = stmt(X->getBody());
    } else if (const auto *X = dyn_cast<UnaryExprOrTypeTraitExpr>(E)) {
      O["k"] = "Sizeof";
      O["v"] = spelling(X);
    } else if (const auto *X = dyn_cast<CXXScalarValueInitExpr>(E)) {
      O["k"]  = "ZeroInit";
      O["ty"] = ty(X->getType());
    } else if (isa<ImplicitValueInitExpr>(E)) {
      O["k"]  = "ZeroInit";
      O["ty"] = ty(E->getType());
    } else if (const auto *X = dyn_cast<PredefinedExpr>(E)) {
      O["k"] = "Str";
      O["v"] = X->getFunctionName() ? X->getFunctionName()->getString().str() : std::string("");
    } else {
      O["k"]   = "Other";
      O["cls"] = E->getStmtClassName();
      json::Array A;
      for (const Stmt *ch : E->children())
        if (const auto *ce = dyn_cast_or_null<Expr>(ch)) A.push_back(expr(ce));
      O["ch"] = std::move(A);
    }
    return std::move(O);
  }

  json::Object varDeclInfo(const VarDecl *V)
  {
    json::Object O;
    O["name"] = V->getNameAsString();
    O["id"]   = declId(V);
    O["ty"]   = ty(V->getType());
    O["dk"]   = varKind(V);
    O["l"]    = (int64_t)lineOf(V->getLocation());
    if (V->getType().isConstQualified()) O["const"] = true;
    if (V->hasInit()) O["init"] = expr(V->getInit());
    return O;
  }

  // --------------------------------------------------------------- statements
  json::Value stmt(const Stmt *S)
  {
    if (!S) return nullptr;
    if (const auto *E = dyn_cast<Expr>(S)) {
      json::Object O;
      O["k"] = "Expr";
      O["l"] = (int64_t)lineOf(S->getBeginLoc());
      O["e"] = expr(E);
      return std::move(O);
    }
    json::Object O;
    O["l"] = (int64_t)lineOf(S->getBeginLoc());
    if (const auto *X = dyn_cast<CompoundStmt>(S)) {
      O["k"] = "Compound";
      json::Array A;
      for (const Stmt *c : X->body()) A.push_back(stmt(c));
      O["s"] = std::move(A);
      O["le"] = (int64_t)lineOf(X->getRBracLoc());
    } else if (const auto *X = dyn_cast<IfStmt>(S)) {
      O["k"] = "If";
      if (X->getInit()) O["init"] = stmt(X->getInit());
      if (X->getConditionVariable()) O["cvar"] = varDeclInfo(X->getConditionVariable());
      O["c"] = expr(X->getCond());
      O["t"] = stmt(X->getThen());
      if (X->getElse()) O["e"] = stmt(X->getElse());
    } else if (const auto *X = dyn_cast<GotoStmt>(S)) {
      O["k"]     = "Goto";
      O["label"] = X->getLabel()->getNameAsString();
    } else if (const auto *X = dyn_cast<LabelStmt>(S)) {
      O["k"]    = "Label";
      O["name"] = X->getDecl()->getNameAsString();
      O["s"]    = stmt(X->getSubStmt());
    } else if (const auto *X = dyn_cast<ReturnStmt>(S)) {
      O["k"] = "Return";
      if (X->getRetValue()) O["e"] = expr(X->getRetValue());
    } else if (const auto *X = dyn_cast<ForStmt>(S)) {
      O["k"] = "For";
      if (X->getInit()) O["init"] = stmt(X->getInit());
      if (X->getCond()) O["c"] = expr(X->getCond());
      if (X->getInc()) O["inc"] = expr(X->getInc());
      O["body"] = stmt(X->getBody());
    } else if (const auto *X = dyn_cast<CXXForRangeStmt>(S)) {
      O["k"]     = "ForRange";
      O["var"]   = varDeclInfo(X->getLoopVariable());
      O["range"] = expr(X->getRangeInit());
      O["body"]  = stmt(X->getBody());
    } else if (const auto *X = dyn_cast<WhileStmt>(S)) {
      O["k"]    = "While";
      if (X->getConditionVariable()) O["cvar"] = varDeclInfo(X->getConditionVariable());
      O["c"]    = expr(X->getCond());
      O["body"] = stmt(X->getBody());
    } else if (const auto *X = dyn_cast<DoStmt>(S)) {
      O["k"]    = "Do";
      O["c"]    = expr(X->getCond());
      O["body"] = stmt(X->getBody());
    } else if (const auto *X = dyn_cast<SwitchStmt>(S)) {
      O["k"]    = "Switch";
      O["c"]    = expr(X->getCond());
      O["body"] = stmt(X->getBody());
    } else if (const auto *X = dyn_cast<CaseStmt>(S)) {
      O["k"] = "Case";
      O["v"] = expr(X->getLHS());
      O["s"] = stmt(X->getSubStmt());
    } else if (const auto *X = dyn_cast<DefaultStmt>(S)) {
      O["k"] = "Default";
      O["s"] = stmt(X->getSubStmt());
    } else if (isa<BreakStmt>(S)) {
      O["k"] = "Break";
    } else if (isa<ContinueStmt>(S)) {
      O["k"] = "Continue";
    } else if (isa<NullStmt>(S)) {
      O["k"] = "Null";
    } else if (const auto *X = dyn_cast<DeclStmt>(S)) {
      O["k"] = "Decl";
      json::Array A;
      for (const Decl *D : X->decls()) {
        if (const auto *V = dyn_cast<VarDecl>(D)) {
          A.push_back(varDeclInfo(V));
          if (V->isStaticLocal()) noteStatic(V);
        }
      }
      O["vars"] = std::move(A);
    } else if (const auto *X = dyn_cast<CXXTryStmt>(S)) {
      O["k"]    = "Try";
      O["body"] = stmt(X->getTryBlock());
      json::Array H;
      for (unsigned i = 0; i < X->getNumHandlers(); i++) {
        const CXXCatchStmt *Hd = X->getHandler(i);
        json::Object HO;
        HO["l"] = (int64_t)lineOf(Hd->getBeginLoc());
        if (Hd->getExceptionDecl()) HO["var"] = varDeclInfo(Hd->getExceptionDecl());
        HO["ty"]   = ty(Hd->getCaughtType());
        HO["body"] = stmt(Hd->getHandlerBlock());
        H.push_back(std::move(HO));
      }
      O["handlers"] = std::move(H);
    } else {
      O["k"]   = "OtherStmt";
      O["cls"] = S->getStmtClassName();
      json::Array A;
      for (const Stmt *c : S->children()) A.push_back(stmt(c));
      O["ch"] = std::move(A);
    }
    return std::move(O);
  }

  // -------------------------------------------------------------------- decls
  const FunctionDecl *CurFn = nullptr;

  void noteStatic(const VarDecl *V)
  {
    if (!isProject(V->getLocation())) return;
    if (!SeenStatics.insert(V->getCanonicalDecl()).second) return;
    json::Object O = varDeclInfo(V);
    O["qn"]        = V->getQualifiedNameAsString();
    O["file"]      = fileOf(V->getLocation());
    if (V->isStaticLocal() && CurFn) O["func"] = CurFn->getQualifiedNameAsString();
    O["is_def"] = V->isThisDeclarationADefinition() == VarDecl::Definition;
    QualType T  = V->getType();
    if (T->isReferenceType()) O["is_ref"] = true;
    if (T->isPointerType()) O["ptr_to_const"] = T->getPointeeType().isConstQualified();
    if (V->isConstexpr()) O["constexpr"] = true;
    if (V->getTLSKind() != VarDecl::TLS_None) O["tls"] = true;
    Statics.push_back(std::move(O));
  }

  void function(const FunctionDecl *F)
  {
    if (!F->doesThisDeclarationHaveABody()) return;
    if (!isProject(F->getLocation())) return;
    if (F->isDefaulted() || F->isImplicit()) return;
    const FunctionDecl *Saved = CurFn;
    CurFn                     = F;
    json::Object O;
    O["name"] = F->getNameAsString();
    O["qn"]   = F->getQualifiedNameAsString();
    O["id"]   = declId(F);
    O["file"] = fileOf(F->getLocation());
    O["l"]    = (int64_t)lineOf(F->getBeginLoc());
    O["le"]   = (int64_t)lineOf(F->getEndLoc());
    O["ret"]  = ty(F->getReturnType());
    O["main_file"] = SM.isInMainFile(SM.getExpansionLoc(F->getLocation()));
    json::Array P;
    for (const ParmVarDecl *p : F->parameters()) {
      json::Object PO;
      PO["name"] = p->getNameAsString();
      PO["id"]   = declId(p);
      PO["ty"]   = ty(p->getType());
      PO["pm"]   = passMode(p->getType());
      P.push_back(std::move(PO));
    }
    O["params"] = std::move(P);
    if (F->getStorageClass() == SC_Static) O["static_linkage"] = true;
    if (F->isInAnonymousNamespace()) O["anon_ns"] = true;
    if (const auto *M = dyn_cast<CXXMethodDecl>(F)) {
      O["method"] = true;
      O["cls"]    = M->getParent()->getQualifiedNameAsString();
      if (M->isConst()) O["const"] = true;
      if (M->isVirtual()) O["virtual"] = true;
      if (M->isStatic()) O["static"] = true;
      O["access"] = getAccessSpelling(M->getAccess()).str();
      json::Array Ov;
      for (const CXXMethodDecl *o : M->overridden_methods()) Ov.push_back(o->getQualifiedNameAsString());
      if (!Ov.empty()) O["overrides"] = std::move(Ov);
      if (const auto *CD = dyn_cast<CXXConstructorDecl>(M)) {
        O["ctor"] = true;
        json::Array I;
        for (const CXXCtorInitializer *ci : CD->inits()) {
          json::Object IO;
          if (ci->isAnyMemberInitializer()) {
            IO["field"] = ci->getAnyMember()->getNameAsString();
            IO["qn"]    = ci->getAnyMember()->getQualifiedNameAsString();
          } else if (ci->isBaseInitializer()) {
            IO["base"] = ty(QualType(ci->getBaseClass(), 0));
          } else if (ci->isDelegatingInitializer()) {
            IO["delegating"] = true;
          }
          IO["written"] = ci->isWritten();
          IO["init"]    = expr(ci->getInit());
          IO["l"]       = (int64_t)lineOf(ci->getSourceLocation());
          I.push_back(std::move(IO));
        }
        O["inits"] = std::move(I);
      }
      if (isa<CXXDestructorDecl>(M)) O["dtor"] = true;
    }
    O["body"] = stmt(F->getBody());
    Functions.push_back(std::move(O));
    CurFn = Saved;
  }

  void record(const CXXRecordDecl *R)
  {
    if (!R->isThisDeclarationADefinition() || !isProject(R->getLocation())) return;
    if (R->isLambda()) return;
    json::Object O;
    O["name"] = R->getNameAsString();
    O["qn"]   = R->getQualifiedNameAsString();
    O["file"] = fileOf(R->getLocation());
    O["l"]    = (int64_t)lineOf(R->getLocation());
    O["kind"] = R->getKindName().str();
    json::Array B;
    for (const auto &b : R->bases()) {
      json::Object BO;
      BO["ty"]     = ty(b.getType());
      BO["access"] = getAccessSpelling(b.getAccessSpecifier()).str();
      B.push_back(std::move(BO));
    }
    O["bases"] = std::move(B);
    json::Array Fs;
    for (const FieldDecl *f : R->fields()) {
      json::Object FO;
      FO["name"]   = f->getNameAsString();
      FO["qn"]     = f->getQualifiedNameAsString();
      FO["ty"]     = ty(f->getType());
      FO["access"] = getAccessSpelling(f->getAccess()).str();
      FO["l"]      = (int64_t)lineOf(f->getLocation());
      if (f->isMutable()) FO["mutable"] = true;
      if (f->hasInClassInitializer() && f->getInClassInitializer()) FO["init"] = expr(f->getInClassInitializer());
      Fs.push_back(std::move(FO));
    }
    O["fields"] = std::move(Fs);
    json::Array Ms;
    for (const Decl *D : R->decls()) {
      if (const auto *M = dyn_cast<CXXMethodDecl>(D)) {
        if (M->isImplicit()) continue;
        json::Object MO;
        MO["name"]   = M->getNameAsString();
        MO["qn"]     = M->getQualifiedNameAsString();
        MO["id"]     = declId(M);
        MO["access"] = getAccessSpelling(M->getAccess()).str();
        MO["l"]      = (int64_t)lineOf(M->getLocation());
        if (M->isConst()) MO["const"] = true;
        if (M->isVirtual()) MO["virtual"] = true;
        if (M->isPure()) MO["pure"] = true;
        if (M->isStatic()) MO["static"] = true;
        if (M->isDefaulted()) MO["defaulted"] = true;
        if (M->isDeleted()) MO["deleted"] = true;
        if (isa<CXXConstructorDecl>(M)) MO["ctor"] = true;
        if (isa<CXXDestructorDecl>(M)) MO["dtor"] = true;
        MO["ret"] = ty(M->getReturnType());
        json::Array pm;
        for (const ParmVarDecl *p : M->parameters()) pm.push_back(passMode(p->getType()));
        MO["pm"] = std::move(pm);
        json::Array Ov;
        for (const CXXMethodDecl *o : M->overridden_methods()) Ov.push_back(o->getQualifiedNameAsString());
        if (!Ov.empty()) MO["overrides"] = std::move(Ov);
        Ms.push_back(std::move(MO));
      }
    }
    O["methods"] = std::move(Ms);
    Records.push_back(std::move(O));
  }

  void declContext(const DeclContext *DC)
  {
    for (const Decl *D : DC->decls()) {
      if (const auto *N = dyn_cast<NamespaceDecl>(D)) {
        declContext(N);
      } else if (const auto *L = dyn_cast<LinkageSpecDecl>(D)) {
        declContext(L);
      } else if (const auto *R = dyn_cast<CXXRecordDecl>(D)) {
        record(R);
        if (R->isThisDeclarationADefinition()) declContext(R);
      } else if (const auto *F = dyn_cast<FunctionDecl>(D)) {
        function(F);
      } else if (const auto *FT = dyn_cast<FunctionTemplateDecl>(D)) {
        function(FT->getTemplatedDecl());
      } else if (const auto *V = dyn_cast<VarDecl>(D)) {
        if (V->hasGlobalStorage()) noteStatic(V);
      } else if (const auto *E = dyn_cast<EnumDecl>(D)) {
        if (!isProject(E->getLocation()) || !E->isThisDeclarationADefinition()) continue;
        json::Object O;
        O["name"] = E->getNameAsString();
        O["qn"]   = E->getQualifiedNameAsString();
        O["file"] = fileOf(E->getLocation());
        O["l"]    = (int64_t)lineOf(E->getLocation());
        json::Array A;
        for (const EnumConstantDecl *ec : E->enumerators()) {
          json::Object EO;
          EO["name"] = ec->getNameAsString();
          EO["val"]  = (int64_t)ec->getInitVal().getExtValue();
          EO["l"]    = (int64_t)lineOf(ec->getLocation());
          A.push_back(std::move(EO));
        }
        O["enumerators"] = std::move(A);
        Enums.push_back(std::move(O));
      }
    }
  }
};

struct Cons : ASTConsumer {
  std::string InFile;
  Cons(StringRef f) : InFile(f.str()) {}
  void HandleTranslationUnit(ASTContext &C) override
  {
    if (C.getDiagnostics().hasErrorOccurred()) {
      llvm::errs() << "d0ast: parse errors in " << InFile << "\n";
    }
    Exporter X(C);
    X.declContext(C.getTranslationUnitDecl());
    json::Object Root;
    Root["file"]      = InFile;
    Root["errors"]    = C.getDiagnostics().hasErrorOccurred();
    Root["functions"] = std::move(X.Functions);
    Root["statics"]   = std::move(X.Statics);
    Root["records"]   = std::move(X.Records);
    Root["enums"]     = std::move(X.Enums);
    std::string name  = InFile;
    for (char &c : name)
      if (c == '/') c = '%';
    std::string out = OutDir + "/" + name + ".json";
    std::error_code EC;
    llvm::raw_fd_ostream OS(out, EC);
    if (EC) {
      llvm::errs() << "d0ast: cannot write " << out << ": " << EC.message() << "\n";
      return;
    }
    OS << json::Value(std::move(Root));
  }
};
struct Act : ASTFrontendAction {
  std::unique_ptr<ASTConsumer> CreateASTConsumer(CompilerInstance &, StringRef f) override
  {
    return std::make_unique<Cons>(f);
  }
};
} // namespace

int main(int argc, const char **argv)
{
  auto P = CommonOptionsParser::create(argc, argv, Cat);
  if (!P) {
    llvm::errs() << P.takeError();
    return 1;
  }
  ClangTool T(P->getCompilations(), P->getSourcePathList());
  return T.run(newFrontendActionFactory<Act>().get());
}
