#!/bin/bash
# usage: tools/try_benign.sh <patch> [Cxx ...]  -- apply a behaviour-preserving change to a scratch worktree and run checks (default: all)
P="$1"; shift
WT=${BENIGN_WT:-/tmp/vs/base}
git -C $WT checkout -q -- .
git -C $WT apply --check "$P" 2>/dev/null || { echo "PATCH DOES NOT APPLY: $P"; exit 3; }
git -C $WT apply "$P"
CH="${@:-C01 C02 C03 C04 C05 C06 C07 C08 C09 C10 C11 C12 C13 C14 C15 C16 C17}"
cd /verif
echo $CH | tr ' ' '\n' | xargs -P8 -I{} sh -c 'VERIF_REPO='$WT' VERIF_EVIDENCE_DIR='${BENIGN_EV:-/tmp/matrix_ev}' ./check {} >/tmp/benign${BENIGN_TAG}_{}.out 2>&1; echo "{}=$?"' | sort | tr '\n' ' '
echo
for c in $CH; do if ! grep -q "^== " /tmp/benign${BENIGN_TAG}_$c.out || grep -q "^VIOLATION\|ANALYSIS-BROKEN" /tmp/benign${BENIGN_TAG}_$c.out; then echo "--- $c"; grep -v conda /tmp/benign${BENIGN_TAG}_$c.out | grep -B1 -A3 "^\S*: \[\|ANALYSIS-BROKEN" | grep -v "^VIOLATION\|^--" | cut -c1-300 | head -14; fi; done
git -C $WT checkout -q -- .
