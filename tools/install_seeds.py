#!/usr/bin/env python3
"""usage: tools/install_seeds.py <matrix file> <round> <src dir> [<src dir> ...]
Copies confirmed seeded changes (patch.diff, demo, run_demo.sh, notes.md, stubs/) into /verif/seeded/<id>/ and writes meta.json from
the matrix line `<id> C01=rc ...` (rc 1 = reported, 2 = analysis cannot decide).  The rule names are read from the saved check output
/tmp/matrix_<id>_<Cxx>.out (first bracketed rule of a violation line)."""
import json
import os
import re
import shutil
import subprocess
import sys

mat, rnd = sys.argv[1], int(sys.argv[2])
props = {json.loads(l)['id']: json.loads(l) for l in open('/verif/properties.jsonl')}
rows = {}
for l in open(mat):
    p = l.split()
    if len(p) > 2:
        rows[p[0]] = dict(x.split('=') for x in p[1:])
head = subprocess.run(['git', '-C', '/repo', 'rev-parse', '--short', 'HEAD'], capture_output=True, text=True).stdout.strip()
for src in sys.argv[3:]:
    sid = os.path.basename(src.rstrip('/'))
    dst = os.path.join('/verif/seeded', sid)
    os.makedirs(dst, exist_ok=True)
    for f in os.listdir(src):
        if f in ('prompt.txt',) or f.endswith('.log') or f.startswith('demo_bin') or f in ('demo', 'a.out'):
            continue
        a = os.path.join(src, f)
        if os.path.isdir(a):
            if f in ('stubs', 'g4stub'):
                shutil.copytree(a, os.path.join(dst, f), dirs_exist_ok=True)
            continue
        if os.path.getsize(a) > 400000:
            continue
        shutil.copy(a, dst)
    target = re.sub(r'^r\d+', '', sid)
    caught, broken, quiet = {}, [], []
    for c, rc in sorted(rows[sid].items()):
        if rc == '1':
            rule = '?'
            try:
                for line in open('/tmp/matrix_%s_%s.out' % (sid, c), errors='replace'):
                    m = re.match(r'^\S+: \[([A-Za-z0-9_.\-=:]+)\]', line)
                    if m and not line.startswith('KNOWN-FINDING'):
                        rule = m.group(1)
                        break
            except OSError:
                pass
            caught[c] = rule
        elif rc == '2':
            broken.append(c)
        else:
            quiet.append(c)
    notes = os.path.join(dst, 'notes.md')
    summary = ''
    if os.path.exists(notes):
        for line in open(notes):
            if line.strip() and not line.startswith('#'):
                summary = line.strip()[:100]
                break
    meta = {'seed': sid, 'target_property': target, 'title': props[target]['title'], 'round': rnd, 'summary': summary,
            'made_by': 'independent sub-agent given only the property text and a scratch worktree',
            'confirmed': {'on_commit': head, 'how': 'tools/verify_seed.sh: demo exits 0 on the pristine tree; with the patch the tree '
                          'builds, ctest 19/19 pass, demo exits non-zero', 'date': '2026-09-28'},
            'caught_by': caught, 'analysis_broken_in': broken, 'not_flagged_by': quiet}
    json.dump(meta, open(os.path.join(dst, 'meta.json'), 'w'), indent=1)
    print(sid, caught, broken)
