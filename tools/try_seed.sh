#!/bin/sh
# usage: tools/try_seed.sh <patch.diff> <Cxx> [<Cxx>...]   -- apply a seeded change to /repo, run checks, undo
P="$1"; shift
git -C /repo apply --check "$P" || { echo "PATCH DOES NOT APPLY: $P"; exit 3; }
git -C /repo apply "$P"
for c in "$@"; do
  ./check "$c" > /tmp/seed_$c.out 2>&1; rc=$?
  echo "check $c rc=$rc"; grep -v conda /tmp/seed_$c.out | grep -A3 "^bxdecay0\|^programs\|^extensions\|^resources" | grep -v "^VIOLATION\|^--" | cut -c1-260 | head -${LINES_MAX:-12}
done
git -C /repo checkout -- .
git -C /repo status --short | grep -v _build
