#!/bin/bash
# usage: tools/verify_seed.sh <dir with patch.diff + run_demo.sh> [<worktree already built at HEAD>]
# Confirms a seeded change: demo passes on the pristine tree; with the patch the tree builds, the 19 tests pass, the demo fails.
D="$1"; WT="${2:-/tmp/vs/base}"
[ -d "$WT/_build" ] || { echo "no built worktree at $WT"; exit 3; }
cd "$WT" || exit 3
git checkout -q -- . ; git status --short | grep -v _build
echo "== pristine demo"; bash "$D/run_demo.sh" "$WT" > /tmp/vs_demo0.out 2>&1; r0=$?; echo "   rc=$r0"
git apply --check "$D/patch.diff" || { echo "PATCH DOES NOT APPLY"; exit 4; }
git apply "$D/patch.diff"
echo "== build with patch"; cmake --build _build -j12 2>&1 | tail -1
echo "== ctest"; ctest --test-dir _build -j8 --timeout 900 2>&1 | grep "tests passed\|tests failed" 
echo "== patched demo"; bash "$D/run_demo.sh" "$WT" > /tmp/vs_demo1.out 2>&1; r1=$?; echo "   rc=$r1"; tail -3 /tmp/vs_demo1.out | cut -c1-200
git checkout -q -- . ; cmake --build _build -j12 2>&1 | tail -1
[ $r0 -eq 0 ] && [ $r1 -ne 0 ] && echo "CONFIRMED" || echo "NOT CONFIRMED (pristine rc=$r0, patched rc=$r1)"
