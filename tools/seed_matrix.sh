#!/bin/bash
# usage: tools/seed_matrix.sh <worktree at HEAD> <out file> <seed dir>...   -- which checks flag which seeded change
WT="$1"; OUT="$2"; shift 2
cd /verif
for D in "$@"; do
  id=$(basename "$D")
  git -C "$WT" checkout -q -- . 
  git -C "$WT" apply "$D/patch.diff" || { echo "$id PATCH-FAILS" >> "$OUT"; continue; }
  res=$(for c in C01 C02 C03 C04 C05 C06 C07 C08 C09 C10 C11 C12 C13 C14 C15 C16 C17; do echo $c; done | \
    xargs -P6 -I{} sh -c 'VERIF_REPO='"$WT"' VERIF_EVIDENCE_DIR=/tmp/matrix_ev ./check {} >/tmp/matrix_'"$id"'_{}.out 2>&1; echo "{}=$?"' | sort | tr '\n' ' ')
  echo "$id $res" >> "$OUT"
  git -C "$WT" checkout -q -- .
done
echo DONE >> "$OUT"
